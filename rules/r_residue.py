"""R-RESIDUE [N] — operands of the single-subtraction modular primitives are residues.

`add_u64_mod(a, b, q)` computes a + b and subtracts q at most ONCE; `sub_u64_mod` adds q at most once; `negate_u64_mod`
returns q - a.  Each is the exact residue only when its operands already lie in [0, q).  With an operand of arbitrary
magnitude the result is congruent but NOT reduced: it is written into a residue buffer as a value >= q (the object then
fails `is_valid_for`, or later lazy arithmetic overflows its documented range).

Every call of these primitives in library code is checked.  An operand is classified by where its value comes from
(followed through lets, re-assignments, `if` values and — for parameters — through every call site in the crate):
   residue   the result of a reducing routine (Barrett reductions, `Modulus::reduce`, the `*_mod` products / sums, `% q`),
             the literals 0 and 1;
   element   an element of a `[u64]` / `Vec<u64>` residue buffer (reduced by the representation invariant that
             `is_valid_for` checks; which modulus it is reduced under is R-SLOTMOD's / R-RESDOM's subject);
   arbitrary the result of plain integer arithmetic, of a division routine (a quotient), a cast from a float, or a
             parameter into which some caller passes such a value.
An `arbitrary` operand is a violation; anything the rule cannot classify is `unresolved`.
"""
from facts import walk, callee, strip, local_of, root_local, target_key
from r_slotmod import Sym

R = "R-RESIDUE"
SINKS = {"add_u64_mod": (0, 1), "sub_u64_mod": (0, 1), "negate_u64_mod": (0,)}
REDUCERS = {"barrett_reduce_u64", "barrett_reduce_u128", "multiply_u64_mod", "multiply_u64operand_mod", "multiply_add_u64_mod",
            "multiply_u64operand_add_u64_mod", "add_u64_mod", "sub_u64_mod", "negate_u64_mod", "exponentiate_u64_mod",
            "modulo_uint", "reduce", "reduce_u128", "reduce_mul_u64", "div2_u64_mod", "dot_product_mod"}
# routines whose &mut scalar output is a residue modulo the modulus they are given
REDUCED_OUT = {"try_invert_u64_mod", "try_invert_u64_mod_u64", "try_minimal_primitive_root", "try_primitive_root"}
# routines whose &mut output is a quotient / an unreduced integer
UNREDUCED_OUT = {"divide_u128_u64_inplace", "divide_uint_inplace", "multiply_u64_u64", "multiply_uint", "add_u64", "sub_u64",
                 "multiply_uint_u64", "add_uint", "sub_uint", "left_shift_u128", "right_shift_u128", "divide_u192_u64_inplace"}


class Classifier:
    def __init__(self, facts):
        self.facts = facts
        self.param_memo = {}
        self.ctx = {}

    def fn_ctx(self, p):
        if p not in self.ctx:
            body = self.facts.hir[p]
            defs = {}
            outs = {}          # lid -> set of callee names that received it (or an element of it) through &mut
            for x in walk(body):
                k = x.get("k")
                if k == "Let" and x["pat"].get("k") == "PBind" and "init" in x:
                    defs.setdefault(x["pat"]["lid"], []).append(x["init"])
                elif k in ("Assign", "AssignOp"):
                    lo = local_of(x["lhs"])
                    if lo:
                        defs.setdefault(lo[0], []).append(x["rhs"] if k == "Assign" else {"k": "Bin", "op": "+", "a": x["lhs"], "b": x["rhs"]})
                    else:
                        rl = root_local(x["lhs"])
                        if rl and strip(x["lhs"]).get("k") == "Index":
                            outs.setdefault(rl[0], {}).setdefault("elem_assign", []).append(x["rhs"])
                elif k in ("Call", "MCall"):
                    f = callee(x) or {}
                    args = ([x["recv"]] if k == "MCall" else []) + x.get("args", [])
                    for a in args:
                        if self.facts.ty_adj(a).startswith("&mut ") or self.facts.ty(a).startswith("&mut "):
                            rl = root_local(a)
                            if rl:
                                outs.setdefault(rl[0], {}).setdefault("calls", []).append(f.get("name") or x.get("name"))
            it = self.facts.items[p]
            params = {prm["pat"]["lid"]: j for j, prm in enumerate(it["params"]) if prm["pat"].get("k") == "PBind"}
            self.ctx[p] = (defs, outs, params, Sym(self.facts, body))
        return self.ctx[p]

    def join(self, cs):
        cs = [c for c in cs if c is not None]
        if not cs:
            return ("unk", "no definition")
        for c in cs:
            if c[0] == "any":
                return c
        for c in cs:
            if c[0] == "unk":
                return c
        for c in cs:
            if c[0] == "param":
                return c
        if all(c[0] == "buf" for c in cs):
            return cs[0]
        return cs[0]

    def classify(self, p, e, depth=0, seen=()):
        facts = self.facts
        defs, outs, params, sym = self.fn_ctx(p)
        if depth > 10 or not isinstance(e, dict):
            return ("unk", "too deep")
        e = strip(e)
        k = e.get("k")
        if k == "Lit":
            v = str(e.get("v", "")).split("_")[0]
            if v in ("0", "1"):
                return ("red", "*")
            if v.isdigit() and int(v) < 65536:
                return ("unk", "the literal %s (a residue for every modulus above it)" % v)
            return ("any", "the literal %s" % v)
        if k == "Cast":
            src_t = facts.ty(e["e"])
            if src_t.startswith("f"):
                return ("any", "a cast from a float")
            return self.classify(p, e["e"], depth + 1, seen)
        if k == "Block" and e.get("expr") is not None:
            return self.classify(p, e["expr"], depth + 1, seen)
        if k == "Inl":
            b = e.get("body") or {}
            return self.classify(p, b.get("expr") if b.get("k") == "Block" else b, depth + 1, seen)
        if k == "If" and e.get("el") is not None:
            return self.join([self.classify(p, e["th"], depth + 1, seen), self.classify(p, e["el"], depth + 1, seen)])
        if k == "Match":
            return self.join([self.classify(p, a["body"], depth + 1, seen) for a in e["arms"]])
        if k == "Bin":
            if e.get("op") == "%":
                return ("red", sym.canon(e["b"]))
            if e.get("op") in (">>", "/"):
                # half (or another proper fraction) of a modulus value is below that modulus
                a = strip(e["a"])
                for _ in range(3):
                    lo_ = local_of(a)
                    if lo_ and lo_[0] in defs and len(defs[lo_[0]]) == 1:
                        a = strip(defs[lo_[0]][0])
                    elif a.get("k") == "Bin" and a.get("op") == "-" and strip(a["b"]).get("k") == "Lit":
                        a = strip(a["a"])
                    else:
                        break
                b = strip(e["b"])
                if a.get("k") == "MCall" and a.get("name") == "value" and b.get("k") == "Lit" and \
                        str(b.get("v", "")).split("_")[0] not in ("0",) and not (e["op"] == "/" and str(b.get("v", "")).split("_")[0] == "1"):
                    return ("red", sym.canon(a["recv"]))
            if e.get("op") == "-":
                # q - r for a residue r lies in (0, q]: a single conditional subtraction still yields the exact residue
                a = strip(e["a"])
                lo_ = local_of(a)
                if lo_ and lo_[0] in defs and len(defs[lo_[0]]) == 1:
                    a = strip(defs[lo_[0]][0])
                if a.get("k") == "MCall" and a.get("name") == "value":
                    inner = self.classify(p, e["b"], depth + 1, seen)
                    if inner and inner[0] in ("red", "buf"):
                        return ("red", sym.canon(a["recv"]))
            if e.get("op") in ("+", "-", "*", "<<", ">>", "|", "^", "/"):
                return ("any", "plain integer arithmetic (`%s`)" % e["op"])
            if e.get("op") == "&":
                return ("unk", "a masked value")
        if k in ("Call", "MCall"):
            f = callee(e) or {}
            nm = f.get("name") or e.get("name")
            if nm in REDUCERS:
                args = e.get("args", [])
                mod = e["recv"] if (k == "MCall" and nm.startswith("reduce")) else (args[-1] if args else None)
                return ("red", sym.canon(mod) if mod is not None else "?")
            if nm in ("gen_range", "sample"):
                return ("unk", "a random value from a caller-chosen range")
            if nm in ("gen", "next_u64", "next_u32") and ("rand" in f.get("def", "") or "Rng" in f.get("def", "")
                                                                                 or "Rng" in f.get("trait", "")):
                return ("any", "a random machine word")
            if nm in ("wrapping_add", "wrapping_sub", "wrapping_mul", "abs", "pow"):
                return ("any", "plain integer arithmetic (`%s`)" % nm)
            if nm in ("clone", "unwrap", "to_owned", "min", "max") and k == "MCall":
                return self.classify(p, e["recv"], depth + 1, seen)
            if nm == "value" and k == "MCall":
                return ("any", "the modulus value itself")
            return ("unk", "the result of `%s`" % nm)
        if k == "Index":
            base_t = facts.ty(e["e"]).replace("&mut ", "").replace("&", "").strip()
            rl = root_local(e["e"])
            if base_t.startswith("[u64;"):
                # a fixed-size scratch array: what wrote it?
                if rl and rl[0] in outs:
                    calls = outs[rl[0]].get("calls", [])
                    bad = [c for c in calls if c in UNREDUCED_OUT]
                    if bad:
                        return ("any", "an element of the scratch array `%s` written by %s (a quotient / unreduced integer)" % (rl[1], bad[0]))
                    ea = outs[rl[0]].get("elem_assign", [])
                    if ea and not calls:
                        return self.join([self.classify(p, r, depth + 1, seen) for r in ea])
                return ("unk", "an element of the scratch array `%s`" % (rl[1] if rl else "?"))
            if base_t.startswith("[u64]") or base_t.startswith("std::vec::Vec<u64") or base_t.startswith("alloc::vec::Vec<u64"):
                return ("buf", "")
            return ("unk", "an element of `%s`" % base_t[:40])
        lo = local_of(e)
        if lo:
            lid = lo[0]
            if lid in seen:
                return None
            if lid in params and lid not in defs:
                t = facts.items[p]["params"][params[lid]].get("ty", "")
                if t.replace("&", "").strip() == "u64":
                    return ("param", params[lid], lo[1])
                return ("unk", "parameter `%s`" % lo[1])
            if lid in defs:
                cs = [self.classify(p, d, depth + 1, seen + (lid,)) for d in defs[lid]]
                # a scalar handed to a callee through `&mut` is (also) whatever that callee stores into it
                for cn in (outs.get(lid, {}).get("calls", []) if facts.ty(e).replace("&mut ", "").replace("&", "").strip() == "u64" else []):
                    if cn in UNREDUCED_OUT:
                        cs.append(("any", "`%s` as written by %s (a quotient / unreduced integer)" % (lo[1], cn)))
                    elif cn in REDUCED_OUT:
                        cs.append(("red", "*"))
                    else:
                        cs.append(("unk", "`%s` as written by %s" % (lo[1], cn)))
                return self.join(cs)
            # pattern-bound (for-loop element, closure parameter): element of what is iterated
            t = facts.ty(e).replace("&mut ", "").replace("&", "").strip()
            if t == "u64":
                return ("buf", "") if self._iter_bound(p, lid) else ("unk", "binding `%s`" % lo[1])
            return ("unk", "binding `%s`" % lo[1])
        return ("unk", "an expression of kind %s" % k)

    def _iter_bound(self, p, lid):
        from facts import pat_bindings
        for x in walk(self.facts.hir[p]):
            if x.get("k") == "For" and any(l == lid for l, _ in pat_bindings(x["pat"])):
                return True
            if x.get("k") == "Closure":
                for prm in x.get("params", []):
                    pt = prm.get("pat", prm)
                    if any(l == lid for l, _ in pat_bindings(pt)):
                        return True
        return False

    def param_class(self, p, j, stack=()):
        """join of what the crate's callers pass for parameter j of p"""
        key = (p, j)
        if key in self.param_memo:
            return self.param_memo[key]
        if key in stack or len(stack) > 4:
            return ("unk", "recursion")
        res = []
        sites = []
        for caller in sorted(self.facts.callers_of(p)):
            if caller not in self.facts.hir:
                continue
            for x in walk(self.facts.hir[caller]):
                if x.get("k") not in ("Call", "MCall"):
                    continue
                f = callee(x)
                if not f or target_key(f) != p:
                    continue
                args = ([x["recv"]] if x["k"] == "MCall" else []) + x["args"]
                if j >= len(args):
                    continue
                c = self.classify(caller, args[j])
                if c and c[0] == "param":
                    c = self.param_class(caller, c[1], stack + (key,))
                res.append(c)
                sites.append((caller, x, c))
        known = [c for c in res if not (c and c[0] == "ext")]
        if not known:
            out = ("ext", "only callers outside the crate (a public entry point: the caller's obligation)")
        else:
            out = self.join(known)
            if out[0] == "any":
                s = [s for s in sites if s[2] is out or (s[2] and s[2][0] == "any")][0]
                out = ("any", "%s — passed by %s at %s" % (out[1], s[0], self.facts.loc(s[0], s[1])))
        self.param_memo[key] = out
        return out


def identity_sinks(facts):
    """modular primitives (a `&Modulus` parameter, u64 result) in which some return path hands back a u64 PARAMETER unchanged
    while other paths return reduced values: the result is a residue only if that parameter is one, so the parameter is a
    sink of the rule at every call site (exponentiate_u64_mod returns `operand` itself for exponent 1)."""
    out = {}
    for p, it in facts.items.items():
        if p not in facts.hir or "uintsmallmod" not in it.get("file", "") or it.get("ret") != "u64":
            continue
        if not any("Modulus" in prm.get("ty", "") for prm in it["params"]):
            continue
        params = {prm["pat"]["lid"]: j for j, prm in enumerate(it["params"])
                  if prm["pat"].get("k") == "PBind" and prm.get("ty", "").replace("&", "").strip() == "u64" and not prm["pat"].get("mut")}
        body = facts.hir[p]
        rets = [strip(x["e"]) for x in walk(body) if x.get("k") == "Ret" and x.get("e") is not None]
        if body.get("k") == "Block" and body.get("expr") is not None:
            rets.append(strip(body["expr"]))
        ident = set()
        for r in rets:
            lo = local_of(r)
            if lo and lo[0] in params:
                ident.add(params[lo[0]])
        if ident and len(rets) > len(ident):
            out[p] = tuple(sorted(ident))
    return out


def run(facts, rep, floor=0, files=None):
    rep.rule(R, "every operand of add_u64_mod / sub_u64_mod / negate_u64_mod is a residue (result of a reducing routine) or an "
             "element of a residue buffer; an operand of arbitrary magnitude (plain arithmetic, a quotient, a float cast, or a "
             "parameter some caller feeds with one) is refused")
    cl = Classifier(facts)
    idsinks = identity_sinks(facts)
    rep.extra["identity_return_sinks"] = {k: list(v) for k, v in idsinks.items()}
    n = 0
    for p in sorted(facts.hir):
        if "::tests::" in p or facts.items[p].get("kind") == "test":
            continue
        if files is not None and facts.items[p]["file"] not in files:
            continue
        body = facts.hir[p]
        k_site = 0
        for x in walk(body):
            if x.get("k") != "Call":
                continue
            f = callee(x) or {}
            nm = f.get("name")
            tk = target_key(f) if f else None
            if nm in SINKS and "uintsmallmod" in f.get("def", ""):
                ops = SINKS[nm]
            elif nm == "new" and "MultiplyU64ModOperand" in f.get("def", ""):
                # the precomputed quotient floor(operand * 2^64 / modulus) fits a word only for operand < modulus
                ops = (0,)
                nm = "MultiplyU64ModOperand::new"
            elif tk in idsinks and tk != p:
                ops = idsinks[tk]
            else:
                continue
            rep.fn(p)
            for oi in ops:
                if oi >= len(x["args"]):
                    continue
                n += 1
                key = "%s/%s#%d/op%d" % (p, nm, k_site, oi)
                c = cl.classify(p, x["args"][oi])
                via = ""
                if c and c[0] == "param":
                    pname = c[2]
                    c = cl.param_class(p, c[1])
                    via = "parameter `%s`: " % pname
                if c is None:
                    c = ("unk", "cyclic definition")
                if c[0] == "ext":
                    rep.unresolved(R, key, "operand %d of %s: %s%s" % (oi, nm, via, c[1]), facts.loc(p, x))
                elif c[0] in ("red", "buf"):
                    rep.ok(R, key, "%s operand %d is %s" % (nm, oi, "a residue" if c[0] == "red" else "a residue-buffer element"),
                           facts.loc(p, x), nontrivial=(c[0] == "red"))
                elif c[0] == "any":
                    why = ("%s subtracts (adds) the modulus at most once, so the result is congruent but can exceed the modulus: a "
                           "residue buffer receives a value >= q (the object fails is_valid_for / later lazy arithmetic leaves its "
                           "range)" % nm) if nm in SINKS else \
                          ("the quotient floor(operand * 2^64 / modulus) that %s precomputes fits a 64-bit word only for an operand "
                           "below the modulus: products with this operand are wrong once it is larger" % nm) if nm.startswith("Multiply") else \
                          ("%s hands this operand back unchanged on one of its paths, so its result is not reduced either and is "
                           "compared / stored as if it were" % nm)
                    rep.violation(R, key, "operand %d of %s is not a residue — %s%s.  %s" % (oi, nm, via, c[1], why), facts.loc(p, x))
                else:
                    rep.unresolved(R, key, "operand %d of %s: %s%s" % (oi, nm, via, c[1]), facts.loc(p, x))
            k_site += 1
    rep.floor(R, "operands of single-subtraction modular primitives", n, floor)
    return n


def run_quotient_form(facts, rep):
    """R-DEFFORM(quotient) [N]: the precomputed quotient of a multiplication operand is the EXACT floor(operand * 2^64 / q).
    The lazy product's range (< 2q) rests on that exactness.  The assignment to the `quotient` field in
    MultiplyU64ModOperand::set_quotient / new must take its value from an exact division: `divide_u128_u64_inplace` applied to
    the two-word number [0, operand] with divisor `modulus.value()`, or a u128 `/`.  A value assembled from the Barrett ratio
    `const_ratio` (floor(2^128 / q), itself rounded) is a recognised wrong form: operand * floor(2^128/q) >> 64 is one too
    small for part of the operands of generic moduli, so the lazy product leaves [0, 2q) and the strict one returns a value
    in [q, 2q)."""
    RQ = "R-DEFFORM(quotient)"
    rep.rule(RQ, "MultiplyU64ModOperand's quotient field is assigned from an exact 128-by-64 division of [0, operand] by the "
             "modulus value, not assembled from the rounded Barrett ratio")
    from facts import Defs
    n = 0
    for p in sorted(facts.hir):
        if "MultiplyU64ModOperand" not in p or "::tests::" in p:
            continue
        body = facts.hir[p]
        sites = []
        for x in walk(body):
            if x.get("k") == "Assign":
                lhs = strip(x["lhs"])
                if lhs.get("k") == "Field" and lhs.get("name") == "quotient":
                    sites.append(x)
            elif x.get("k") == "Struct" and "MultiplyU64ModOperand" in x.get("path", ""):
                for fld in x.get("fields", []):
                    if fld.get("name") == "quotient" and strip(fld["e"]).get("k") != "Lit":
                        sites.append({"k": "Assign", "lhs": {}, "rhs": fld["e"], "l": x.get("l")})
        for x in sites:
            n += 1
            rep.fn(p)
            key = "%s/quotient" % p
            defs = Defs(body, facts)
            cl = list(defs.closure(x["rhs"]))
            # calls that wrote the local the value is taken from (out-parameters)
            rl0 = root_local(x["rhs"])
            if rl0:
                for y in walk(body):
                    if y.get("k") in ("Call", "MCall") and any((root_local(a) or (None,))[0] == rl0[0] for a in y.get("args", [])):
                        cl.append(y)
                        cl.extend(walk(y))
            exact = any(y.get("k") == "Call" and (callee(y) or {}).get("name") in ("divide_u128_u64_inplace", "divide_uint_inplace")
                        for y in cl) or any(y.get("k") == "Bin" and y.get("op") == "/" and "u128" in facts.ty(y) for y in cl)
            ratio = any(y.get("k") == "MCall" and y.get("name") == "const_ratio" for y in cl)
            if exact and not ratio:
                divs = [y for y in cl if y.get("k") == "Call" and (callee(y) or {}).get("name") == "divide_u128_u64_inplace"]
                by_mod = (not divs) or any(z.get("k") == "MCall" and z.get("name") == "value" for z in walk(divs[0]["args"][1]))
                if by_mod:
                    rep.ok(RQ, key, "quotient taken from an exact division by the modulus value", facts.loc(p, x),
                           sample={"function": p})
                else:
                    rep.unresolved(RQ, key, "exact division, but the divisor is not recognisably the modulus value", facts.loc(p, x))
            elif ratio:
                rep.violation(RQ, key, "the quotient is assembled from `const_ratio` (floor(2^128 / q)) instead of an exact division of "
                              "operand * 2^64 by q: the result is one too small for part of the operands, so the lazy product "
                              "exceeds 2q and the strict product is not reduced", facts.loc(p, x))
            else:
                rep.unresolved(RQ, key, "the quotient's defining computation is not one of the recognised forms", facts.loc(p, x))
    rep.floor(RQ, "assignments to MultiplyU64ModOperand::quotient", n, 1)
    return n


def run_encode_sink(facts, rep, floor=1):
    """R-RESIDUE(encode) [N]: coefficient encoding stores residues modulo t.  BatchEncoder::encode_polynomial takes arbitrary
    words from the caller (a `&[u64]` parameter of a public function, not a residue buffer); every value it stores into the
    plaintext is (i) the result of a reducing routine, or (ii) the caller's word on a path guarded by `word < modulus.value()`
    (the only comparison that makes the identity a reduction).  A word stored under any other guard — a bit-count test
    admits t <= v < 2^bits(t) — leaves a coefficient >= t in the plaintext: decode_polynomial returns it unreduced and the
    plaintext fails is_valid_for."""
    RR = "R-RESIDUE(encode)"
    rep.rule(RR, "every coefficient BatchEncoder::encode_polynomial stores is the result of a reducing routine, or the caller's "
             "word under the guard `word < modulus.value()`")
    cl = Classifier(facts)
    n = 0
    for p in sorted(facts.hir):
        it = facts.items[p]
        if it["file"] != "src/batch_encoder.rs" or it["name"] != "encode_polynomial":
            continue
        body = facts.inlined(p)
        sym = Sym(facts, body)
        user = {prm["pat"]["lid"] for prm in it["params"] if prm["pat"].get("k") == "PBind" and "[u64]" in prm.get("ty", "")}
        dests = {prm["pat"]["lid"] for prm in it["params"] if prm["pat"].get("k") == "PBind" and "Plaintext" in prm.get("ty", "")}
        lets = {}
        for x in walk(body):
            if x.get("k") == "Let" and x["pat"].get("k") == "PBind" and "init" in x:
                lets.setdefault(x["pat"]["lid"], []).append(x["init"])

        def resolve(e):
            e = strip(e)
            for _ in range(4):
                lo = local_of(e)
                if lo and lo[0] in lets and len(lets[lo[0]]) == 1:
                    e = strip(lets[lo[0]][0])
                else:
                    break
            return e

        def is_user_word(e):
            e = resolve(e)
            if e.get("k") == "Un" and e.get("op") == "*":
                e = resolve(e["e"])
            if e.get("k") == "Index":
                rl = root_local(e["e"])
                return bool(rl and rl[0] in user)
            return False

        def below_modulus(cond, word):
            """cond is `word < M.value()` / `M.value() > word` (M.value() possibly let-bound)"""
            c = strip(cond)
            if c.get("k") != "Bin" or c.get("op") not in ("<", ">"):
                return False
            lo_, hi_ = (c["a"], c["b"]) if c["op"] == "<" else (c["b"], c["a"])
            h = resolve(hi_)
            if not (h.get("k") == "MCall" and h.get("name") == "value"):
                return False
            return sym.canon(resolve(lo_)) == sym.canon(resolve(word))

        def judge(e, depth=0):
            """-> ('ok'|'bad'|'unk', text)"""
            e0 = strip(e)
            if depth > 8:
                return ("unk", "too deep")
            if e0.get("k") == "Block" and e0.get("expr") is not None and not e0.get("stmts"):
                return judge(e0["expr"], depth + 1)
            if e0.get("k") == "If" and e0.get("el") is not None:
                th, el = e0["th"], e0["el"]
                thv = strip(th)
                thv = thv["expr"] if thv.get("k") == "Block" and thv.get("expr") is not None and not thv.get("stmts") else thv
                if is_user_word(thv):
                    if below_modulus(e0["c"], thv):
                        a = ("ok", "identity under `word < modulus.value()`")
                    else:
                        a = ("bad", "the caller's word is stored unchanged under a guard that is not `word < modulus.value()`")
                else:
                    a = judge(th, depth + 1)
                b = judge(el, depth + 1)
                for r in (a, b):
                    if r[0] == "bad":
                        return r
                for r in (a, b):
                    if r[0] == "unk":
                        return r
                return a
            if is_user_word(e0):
                return ("bad", "the caller's word is stored without reduction")
            r = resolve(e0)
            if r is not e0 and r.get("k") in ("If", "Block"):
                return judge(r, depth + 1)
            c = cl.classify(p, e0)
            if c and c[0] == "red":
                return ("ok", "result of a reducing routine")
            if c and c[0] == "any":
                return ("bad", c[1])
            return ("unk", (c or ("", "cyclic"))[1] or "an element of a buffer the rule does not know")

        k_site = 0
        for x in walk(body):
            rhs = None
            if x.get("k") == "Assign" and strip(x["lhs"]).get("k") == "Index":
                rl = root_local(x["lhs"])
                if rl and rl[0] in dests:
                    rhs = x["rhs"]
            if rhs is None:
                continue
            n += 1
            rep.fn(p)
            key = "%s/store#%d" % (p, k_site)
            k_site += 1
            v, why = judge(rhs)
            if v == "ok":
                rep.ok(RR, key, "stored coefficient: %s" % why, facts.loc(p, x), sample={"function": p, "why": why})
            elif v == "bad":
                rep.violation(RR, key, "encode_polynomial stores a coefficient that is not reduced modulo the plain modulus — %s.  A "
                              "coefficient v with t <= v is kept as it is: decode_polynomial returns v instead of v mod t and the "
                              "plaintext is not valid for the context" % why, facts.loc(p, x))
            else:
                rep.unresolved(RR, key, "stored coefficient not classified: %s" % why, facts.loc(p, x))
    if n == 0:
        # stores written through iterator bindings (`*coeff = ..` over data_mut().iter_mut().zip(values)) are not read yet
        rep.unresolved(RR, "encode_polynomial/stores", "no indexed store into the destination recognised (iterator form?): not judged",
                       "src/batch_encoder.rs:0")
    rep.floor(RR, "coefficient stores of encode_polynomial", n, 0)
    return n
