use heathcliff::*;
use heathcliff::multiparty::participant::Participant;
use heathcliff::util::{BlakeRNG, PRNGSeed};
use rand::SeedableRng;
use num_complex::Complex;
use std::panic::catch_unwind;
fn report(name: &str, r: std::thread::Result<String>) {
    match r { Ok(s) => println!("{name}: {s}"), Err(_) => println!("{name}: PANIC") }
}
fn main() {
    std::panic::set_hook(Box::new(|i| { eprintln!("   panic: {}", i.to_string().lines().nth(1).unwrap_or("").trim()); }));
    report("C18 collective BGV decryption", catch_unwind(|| {
        let (_p, context, encoder, _kg, _e, _d) = create_bgv_decryptor_suite(4096, 25, vec![30, 30, 30]);
        let seed = PRNGSeed([1; 64]);
        let mut p0 = Participant::new(2, 0, context.clone(), BlakeRNG::from_seed(seed));
        let mut p1 = Participant::new(2, 1, context.clone(), BlakeRNG::from_seed(seed));
        let mut pr0 = p0.generate_public_key();
        let pr1 = p1.generate_public_key();
        let mut m1 = Vec::new(); pr1.send(&mut m1).unwrap(); pr0.receive(1, &mut m1.as_slice()).unwrap();
        let pk = pr0.finish();
        let values = vec![1u64, 3, 5, 7];
        let cipher = Encryptor::new(context.clone()).set_public_key(pk).encrypt_new(&encoder.encode_new(&values));
        let mut d0 = p0.decrypt(&cipher); let d1 = p1.decrypt(&cipher);
        let mut m1 = Vec::new(); d1.send(&mut m1).unwrap(); d0.receive(1, &mut m1.as_slice()).unwrap();
        let dec = encoder.decode_new(&d0.finish());
        format!("{:?} expected [1, 3, 5, 7]", &dec[..4])
    }));
    #[cfg(feature = "run_c05")]
    {}
    if std::env::args().any(|a| a == "c05") {
        report("C05 rescale_to two levels down", catch_unwind(|| {
            let (_p, ctx, enc, _kg, encryptor, dec) = create_ckks_decryptor_suite(8192, vec![40, 30, 30, 30, 40]);
            let ev = Evaluator::new(ctx.clone());
            let scale = 2.0f64.powi(90);
            let ct = encryptor.encrypt_new(&enc.encode_c64_array_new(&[Complex::new(1.5, -2.0)], None, scale));
            let target = *ctx.first_context_data().unwrap().next_context_data().unwrap().next_context_data().unwrap().parms_id();
            let out = ev.rescale_to_new(&ct, &target);
            let v = enc.decode_new(&dec.decrypt_new(&out));
            format!("level ok: {}, scale 2^{:.2}, value {:.4}{:+.4}i", out.parms_id() == &target, out.scale().log2(), v[0].re, v[0].im)
        }));
    }
}
