use heathcliff::{create_bfv_decryptor_suite, Evaluator, Ciphertext};

fn run(values: &[u64]) -> (u64, u64) {
    let (params, context, encoder, keygen, encryptor, decryptor)
        = create_bfv_decryptor_suite(16384, 20, vec![50, 50, 50, 50, 50, 50]);
    let evaluator = Evaluator::new(context.clone());
    let relin_keys = keygen.create_relin_keys(false);
    let t = params.plain_modulus().value();
    let n = encoder.slot_count();
    let cts: Vec<Ciphertext> = values.iter().map(|v| encryptor.encrypt_new(&encoder.encode_new(&vec![*v; n]))).collect();
    let mut out = Ciphertext::new();
    evaluator.multiply_many(&cts, &relin_keys, &mut out);
    let got = encoder.decode_new(&decryptor.decrypt_new(&out))[0];
    let want = values.iter().fold(1u64, |a, b| (a * b) % t);
    (got, want)
}

#[test] fn two() { let (g, w) = run(&[2, 3]); assert_eq!(g, w); }
#[test] fn three() { let (g, w) = run(&[2, 3, 5]); assert_eq!(g, w); }
#[test] fn four() { let (g, w) = run(&[2, 3, 5, 7]); assert_eq!(g, w); }
#[test] fn five() { let (g, w) = run(&[2, 3, 5, 7, 11]); assert_eq!(g, w); }
