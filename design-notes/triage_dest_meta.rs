use heathcliff::{create_bfv_decryptor_suite, create_ckks_decryptor_suite, Evaluator, ValCheck, Ciphertext};
use num_complex::Complex;

// A destination object in an arbitrary prior state (here: scale 2.0 / correction factor 7 set through the public
// setters, as left behind e.g. by use with another context) must be fully overwritten by the destination form.
#[test]
fn bfv_mod_switch_to_next_destination_form_overwrites_metadata() {
    let (_params, context, encoder, _keygen, encryptor, _decryptor) = create_bfv_decryptor_suite(4096, 20, vec![35, 30, 35]);
    let evaluator = Evaluator::new(context.clone());
    let ct = encryptor.encrypt_new(&encoder.encode_new(&[1, 2, 3, 4]));
    let via_new = evaluator.mod_switch_to_next_new(&ct);
    let mut dest = Ciphertext::new();
    dest.set_scale(2.0);
    dest.set_correction_factor(7);
    evaluator.mod_switch_to_next(&ct, &mut dest);
    assert!(via_new.is_valid_for(&context));
    assert_eq!(dest.scale(), via_new.scale(), "scale of the destination form differs from the returning form");
    assert_eq!(dest.correction_factor(), via_new.correction_factor(), "correction factor differs");
    assert!(dest.is_valid_for(&context), "result of the destination form is not valid for the context");
}

#[test]
fn ckks_rescale_to_next_destination_form_overwrites_metadata() {
    let (_params, context, encoder, _keygen, encryptor, _decryptor) = create_ckks_decryptor_suite(8192, vec![40, 40, 40, 40]);
    let evaluator = Evaluator::new(context.clone());
    let msg = vec![Complex::new(1.0, 2.0)];
    let ct = encryptor.encrypt_new(&encoder.encode_c64_array_new(&msg, None, (1u64 << 40) as f64));
    let via_new = evaluator.rescale_to_next_new(&ct);
    let mut dest = Ciphertext::new();
    dest.set_correction_factor(7);
    evaluator.rescale_to_next(&ct, &mut dest);
    assert_eq!(dest.correction_factor(), via_new.correction_factor(), "correction factor differs");
    assert!(dest.is_valid_for(&context), "result of the destination form is not valid for the context");
}
