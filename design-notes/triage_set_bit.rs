use heathcliff::util;

#[test]
fn set_bit_uint_sets_exactly_one_bit() {
    for bit in [0usize, 5, 31, 32, 40, 63, 64, 64 + 31, 64 + 32, 127] {
        let mut v = vec![0u64; 2];
        util::set_bit_uint(&mut v, bit);
        let want: u128 = 1u128 << bit;
        let got = (v[0] as u128) | ((v[1] as u128) << 64);
        assert_eq!(got, want, "bit {}", bit);
    }
}

#[test]
fn div2_uint_mod_with_carry() {
    // (a + m) / 2 for odd a when a + m carries out of the top word
    let a = [3u64, u64::MAX];
    let m = [1u64, u64::MAX];
    let mut r = [0u64; 2];
    util::div2_uint_mod(&a, &m, &mut r);
    let av = (a[0] as u128) | ((a[1] as u128) << 64);
    let mv = (m[0] as u128) | ((m[1] as u128) << 64);
    // 129-bit sum halved
    let (s, c) = av.overflowing_add(mv);
    let want = (s >> 1) | ((c as u128) << 127);
    let got = (r[0] as u128) | ((r[1] as u128) << 64);
    assert_eq!(got, want);
}
