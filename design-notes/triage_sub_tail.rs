use heathcliff::{create_bfv_decryptor_suite, Evaluator};

#[test]
fn sub_size2_minus_size3() {
    let (params, context, encoder, _keygen, encryptor, decryptor)
        = create_bfv_decryptor_suite(8192, 20, vec![40, 40, 40]);
    let evaluator = Evaluator::new(context.clone());
    let t = params.plain_modulus().value();
    let n = encoder.slot_count();
    let x: Vec<u64> = (0..n as u64).map(|i| (i * 7919 + 13) % t).collect();
    let y: Vec<u64> = (0..n as u64).map(|i| (i * 31 + 5) % t).collect();
    let z: Vec<u64> = (0..n as u64).map(|i| (i * 17 + 3) % t).collect();
    let cx = encryptor.encrypt_new(&encoder.encode_new(&x));
    let cy = encryptor.encrypt_new(&encoder.encode_new(&y));
    let cz = encryptor.encrypt_new(&encoder.encode_new(&z));
    let prod = evaluator.multiply_new(&cy, &cz); // size 3
    assert_eq!(prod.size(), 3);
    let expected: Vec<u64> = (0..n).map(|i| ((x[i] as u128 + t as u128 - (y[i] as u128 * z[i] as u128) % t as u128) % t as u128) as u64).collect();
    // control: size 3 minus size 2, negated afterwards
    let mut ctl = evaluator.sub_new(&prod, &cx);
    evaluator.negate_inplace(&mut ctl);
    assert_eq!(encoder.decode_new(&decryptor.decrypt_new(&ctl)), expected, "control");
    let diff = evaluator.sub_new(&cx, &prod);
    assert_eq!(diff.size(), 3);
    let got = encoder.decode_new(&decryptor.decrypt_new(&diff));
    let bad = got.iter().zip(expected.iter()).filter(|(a, b)| a != b).count();
    assert_eq!(bad, 0, "size-2 minus size-3: {} of {} slots wrong", bad, n);
}
