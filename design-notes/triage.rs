use heathcliff::*;
use heathcliff::app::conv2d::{Conv2dHelper, Conv2dHelperObjective};
use std::panic::catch_unwind;
use num_complex::Complex;

fn report(name: &str, r: std::thread::Result<String>) {
    match r { Ok(s) => println!("{name}: {s}"), Err(_) => println!("{name}: PANIC") }
}

fn main() {
    std::panic::set_hook(Box::new(|i| { eprintln!("   panic: {}", i.to_string().lines().nth(1).unwrap_or("").trim()); }));
    // C02: multiply size-3 by size-2
    report("C02 mul(size3,size2)", catch_unwind(|| {
        let (_p, ctx, enc, _kg, encryptor, dec) = create_bfv_decryptor_suite(8192, 20, vec![50, 50, 50]);
        let ev = Evaluator::new(ctx.clone());
        let a = encryptor.encrypt_new(&enc.encode_new(&[2, 3]));
        let b = encryptor.encrypt_new(&enc.encode_new(&[5, 7]));
        let c = encryptor.encrypt_new(&enc.encode_new(&[1, 2]));
        let ab = ev.multiply_new(&a, &b);            // size 3
        let abc = ev.multiply_new(&ab, &c);          // size 3 x size 2
        let abc2 = ev.multiply_new(&c, &ab);         // size 2 x size 3
        let r1 = enc.decode_new(&dec.decrypt_new(&abc));
        let r2 = enc.decode_new(&dec.decrypt_new(&abc2));
        format!("{:?} {:?} expected [10, 42]", &r1[..2], &r2[..2])
    }));
    // C08
    report("C08 multiply_uint 1-word", catch_unwind(|| {
        let mut r = [0u64; 1]; util::multiply_uint(&[3], &[5], &mut r); format!("{} expected 15", r[0])
    }));
    report("C08 multiply_uint_u64_inplace", catch_unwind(|| {
        let mut a = [3u64, 1]; util::multiply_uint_u64_inplace(&mut a, 5); format!("{:?} expected [15, 5]", a)
    }));
    report("C08 right_shift_u192(shift 4)", catch_unwind(|| {
        let mut r = [0u64; 3]; util::right_shift_u192(&[0x10, 0, 0], 4, &mut r); format!("{:?} expected [1, 0, 0]", r)
    }));
    // C11: GaloisTool::apply with short operand
    report("C11 GaloisTool::apply short operand", catch_unwind(|| {
        let tool = util::GaloisTool::new(3);
        let mut out = vec![0u64; 8];
        tool.apply(&[1, 2, 3], 3, &Modulus::new(17), &mut out);
        format!("{:?}", out)
    }));
    // C12
    report("C12 encode_f64_polynomial scale 2^70", catch_unwind(|| {
        let (_p, _ctx, enc, _kg, _e, _d) = create_ckks_decryptor_suite(8192, vec![50, 50, 50, 50]);
        let scale = 2.0f64.powi(70);
        let v = vec![3.0, -2.0, 1.5];
        let pt = enc.encode_f64_polynomial_new(&v, None, scale);
        let d = enc.decode_polynomial_new(&pt);
        format!("{:?} expected [3.0, -2.0, 1.5]", &d[..3])
    }));
    report("C12 encode_i64_single(-2^45) with 40-bit primes", catch_unwind(|| {
        let (_p, _ctx, enc, _kg, _e, _d) = create_ckks_decryptor_suite(8192, vec![40, 40, 40]);
        let pt = enc.encode_i64_single_new(-(1i64 << 45), None);
        let d = enc.decode_new(&pt);
        format!("{:?} expected -35184372088832", d[0].re)
    }));
    // C15
    report("C15 truncated read", catch_unwind(|| {
        let buf = [1u8, 2, 3];
        let mut s = &buf[..];
        format!("{:?}", <u64 as Serializable>::deserialize(&mut s).map_err(|e| e.kind()))
    }));
    report("C15 short writer", catch_unwind(|| {
        struct W(Vec<u8>);
        impl std::io::Write for W {
            fn write(&mut self, b: &[u8]) -> std::io::Result<usize> { let n = b.len().min(3); self.0.extend_from_slice(&b[..n]); Ok(n) }
            fn flush(&mut self) -> std::io::Result<()> { Ok(()) }
        }
        let mut w = W(vec![]);
        let r = 0x0102030405060708u64.serialize(&mut w);
        format!("result {:?}, bytes on stream {} (8 needed)", r.map_err(|e| e.kind()), w.0.len())
    }));
    // C20 conv2d with height split
    report("C20 conv2d image 1024x3 (must split along height)", catch_unwind(|| {
        let (p, ctx, enc, _kg, encryptor, dec) = create_bfv_decryptor_suite(2048, 20, vec![54]);
        let _ = (&ctx, &encryptor, &dec);
        let h = Conv2dHelper::new(1, 1, 1, 1024, 3, 3, 3, p.poly_modulus_degree(), Conv2dHelperObjective::CipherPlain);
        let w = vec![1u64; 9];
        let pw = h.encode_weights_bfv(&enc, &w);
        format!("encoded weights ok: {} rows", pw.len())
    }));
    // C06
    report("C06 mod_switch_to_next_plain_new on invalid plaintext", catch_unwind(|| {
        let (_p, ctx, enc, _kg, _e, _d) = create_ckks_decryptor_suite(8192, vec![40, 40, 40]);
        let ev = Evaluator::new(ctx.clone());
        let mut pt = enc.encode_c64_array_new(&[Complex::new(1.0, 0.0)], None, 2.0f64.powi(20));
        pt.data_mut()[0] = u64::MAX; // out-of-range residue
        let _ = ev.mod_switch_to_next_plain_new(&pt);
        "returned a result (NOT refused)".to_string()
    }));
}
