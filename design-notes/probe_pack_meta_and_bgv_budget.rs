use heathcliff::*;

// pack_lwe_ciphertexts with two CKKS inputs at different scales: accepted, and the second value is wrong
#[test]
fn pack_ckks_mixed_scales() {
    let params = EncryptionParameters::new(SchemeType::CKKS)
        .set_coeff_modulus(&CoeffModulus::create(32, vec![30, 30, 30]))
        .set_poly_modulus_degree(32);
    let context = HeContext::new(params, true, SecurityLevel::None);
    let keygen = KeyGenerator::new(context.clone());
    let encoder = CKKSEncoder::new(context.clone());
    let evaluator = Evaluator::new(context.clone());
    let encryptor = Encryptor::new(context.clone()).set_public_key(keygen.create_public_key(false));
    let decryptor = Decryptor::new(context.clone(), keygen.secret_key().clone());
    let auto = keygen.create_automorphism_keys(false);
    let s1 = (1u64 << 24) as f64; let s2 = (1u64 << 25) as f64;
    let a = encryptor.encrypt_new(&encoder.encode_f64_polynomial_new(&[5.0], None, s1));
    let b = encryptor.encrypt_new(&encoder.encode_f64_polynomial_new(&[3.0], None, s2));
    let lwes = vec![evaluator.extract_lwe(&a, 0), evaluator.extract_lwe(&b, 0)];
    let r = std::panic::catch_unwind(std::panic::AssertUnwindSafe(|| evaluator.pack_lwe_ciphertexts(&lwes, &auto)));
    match r {
        Err(_) => { /* refused: fine */ }
        Ok(packed) => {
            let dec = encoder.decode_polynomial_new(&decryptor.decrypt_new(&packed));
            assert!((dec[0] - 5.0).abs() < 0.01, "slot 0: {}", dec[0]);
            assert!((dec[16] - 3.0).abs() < 0.01, "slot 16 holds {} instead of 3.0 (scale reported {})", dec[16], packed.scale());
        }
    }
}

// invariant_noise_budget of an ordinary (NTT-form) BGV ciphertext
#[test]
fn bgv_budget_of_fresh_ciphertext() {
    let params = EncryptionParameters::new(SchemeType::BGV)
        .set_plain_modulus_u64(65537)
        .set_coeff_modulus(&CoeffModulus::create(4096, vec![35, 30, 35]))
        .set_poly_modulus_degree(4096);
    let context = HeContext::new(params, true, SecurityLevel::None);
    let keygen = KeyGenerator::new(context.clone());
    let encoder = BatchEncoder::new(context.clone());
    let evaluator = Evaluator::new(context.clone());
    let encryptor = Encryptor::new(context.clone()).set_public_key(keygen.create_public_key(false));
    let decryptor = Decryptor::new(context.clone(), keygen.secret_key().clone());
    let c = encryptor.encrypt_new(&encoder.encode_new(&[1, 2, 3]));
    assert!(c.is_ntt_form());
    let direct = decryptor.invariant_noise_budget(&c);
    let manual = decryptor.invariant_noise_budget(&evaluator.transform_from_ntt_new(&c));
    assert_eq!(direct, manual);
    assert!(direct > 0);
}
