use heathcliff::{create_bgv_decryptor_suite, Evaluator, ValCheck};

#[test]
fn correction_factor_equal_to_t_is_invalid() {
    let (params, context, encoder, _keygen, encryptor, _decryptor)
        = create_bgv_decryptor_suite(8192, 20, vec![40, 40, 40]);
    let evaluator = Evaluator::new(context.clone());
    let t = params.plain_modulus().value();
    let x: Vec<u64> = (0..encoder.slot_count() as u64).map(|i| i % t).collect();
    let mut c = encryptor.encrypt_new(&encoder.encode_new(&x));
    let d = encryptor.encrypt_new(&encoder.encode_new(&x));
    c.set_correction_factor(t);          // t = 0 (mod t): not an invertible factor
    let accepted = c.is_valid_for(&context);
    if accepted {
        let prod = evaluator.multiply_new(&c, &d);
        assert!(prod.is_valid_for(&context),
            "an operand with correction factor t was accepted and the product (cf = {}) is invalid", prod.correction_factor());
    }
    assert!(!accepted, "correction factor t accepted as valid");
}
