use heathcliff::{
    app::matmul::{cheetah::MatmulHelper, MatmulHelperObjective},
    app::conv2d::Conv2dHelper,
    BatchEncoder, CoeffModulus, Decryptor, EncryptionParameters, Encryptor, Evaluator,
    ExpandSeed, HeContext, KeyGenerator, SchemeType, SecurityLevel,
};

fn run(pack: bool, last_zero_only: bool) {
    let n = 1024;
    let params = EncryptionParameters::new(SchemeType::BFV)
        .set_poly_modulus_degree(n)
        .set_plain_modulus_u64(1 << 20)
        .set_coeff_modulus(&CoeffModulus::create(n, vec![60, 49]));
    let context = HeContext::new(params, true, SecurityLevel::None);
    let encoder = BatchEncoder::new(context.clone());
    let keygen = KeyGenerator::new(context.clone());
    let encryptor = Encryptor::new(context.clone()).set_secret_key(keygen.secret_key().clone());
    let decryptor = Decryptor::new(context.clone(), keygen.secret_key().clone());
    let evaluator = Evaluator::new(context.clone());
    let auto = keygen.create_automorphism_keys(false);
    let (m, r, o) = (4, 5, 6);
    let helper = MatmulHelper::new(m, r, o, n, MatmulHelperObjective::CipherPlain, pack);
    let x: Vec<u64> = (0..m * r).map(|k| (k as u64 * 7 + 1) % 1000).collect();
    // weights: last column zero => y[.., o-1] == 0, in particular the last output entry
    let mut w: Vec<u64> = (0..r * o).map(|k| (k as u64 * 13 + 5) % 1000).collect();
    if last_zero_only { for k in 0..r { w[k * o + o - 1] = 0; } } else { w.iter_mut().for_each(|v| *v = 0); }
    let xe = helper.encode_inputs_bfv(&encoder, &x).encrypt_symmetric(&encryptor).expand_seed(&context);
    let we = helper.encode_weights_bfv(&encoder, &w);
    let mut y = helper.matmul(&evaluator, &xe, &we);
    if pack { y = helper.pack_outputs(&evaluator, &auto, &y); }
    let out = helper.decrypt_outputs_bfv(&encoder, &decryptor, &y);
    let mut expect = vec![0u64; m * o];
    for i in 0..m { for j in 0..o { for k in 0..r { expect[i*o+j] = (expect[i*o+j] + x[i*r+k] * w[k*o+j]) % (1 << 20); } } }
    assert_eq!(out, expect);
}

#[test] fn nopack_last_col_zero() { run(false, true); }
#[test] fn pack_last_col_zero() { run(true, true); }
#[test] fn nopack_all_zero() { run(false, false); }
#[test] fn pack_all_zero() { run(true, false); }

#[test]
fn conv_zero_weights() {
    let n = 1024;
    let params = EncryptionParameters::new(SchemeType::BFV)
        .set_poly_modulus_degree(n)
        .set_plain_modulus_u64(1 << 20)
        .set_coeff_modulus(&CoeffModulus::create(n, vec![60, 49]));
    let context = HeContext::new(params, true, SecurityLevel::None);
    let encoder = BatchEncoder::new(context.clone());
    let keygen = KeyGenerator::new(context.clone());
    let encryptor = Encryptor::new(context.clone()).set_secret_key(keygen.secret_key().clone());
    let decryptor = Decryptor::new(context.clone(), keygen.secret_key().clone());
    let evaluator = Evaluator::new(context.clone());
    let helper = Conv2dHelper::new(1, 2, 2, 8, 8, 3, 3, n, MatmulHelperObjective::CipherPlain);
    let x: Vec<u64> = (0..2 * 64).map(|k| k as u64 + 1).collect();
    let mut w: Vec<u64> = (0..2 * 2 * 9).map(|k| k as u64 + 1).collect();
    for k in 18..36 { w[k] = 0; } // output channel 1 has an all-zero kernel
    let xe = helper.encode_inputs_bfv(&encoder, &x).encrypt_symmetric(&encryptor).expand_seed(&context);
    let we = helper.encode_weights_bfv(&encoder, &w);
    let y = helper.conv2d(&evaluator, &xe, &we);
    let out = helper.decrypt_outputs_bfv(&encoder, &decryptor, &y);
    assert!(out[36..].iter().all(|&v| v == 0));
}
