use heathcliff::create_ckks_decryptor_suite;

// A scaled coefficient in [q/2, q) cannot be represented (its centred representative is negative): the encoder must
// refuse it, as it does for the single-value entry points (sign-bit allowance), instead of returning a plaintext that
// decodes to another value.
#[test]
fn polynomial_entry_refuses_or_roundtrips_half_modulus() {
    let (_params, _context, encoder, _keygen, _encryptor, _decryptor)
        = create_ckks_decryptor_suite(4096, vec![40, 40]);
    let scale = 2.0_f64.powi(38);
    // coefficient 2.0 * 2^38 = 2^39 > q/2 for the 40-bit data prime
    let r = std::panic::catch_unwind(|| {
        let p = encoder.encode_f64_polynomial_new(&[2.0], None, scale);
        encoder.decode_polynomial_new(&p)
    });
    match r {
        Err(_) => {} // refused: fine
        Ok(v) => assert!((v[0] - 2.0).abs() < 1e-3, "accepted but decoded to {} instead of 2.0", v[0]),
    }
}

#[test]
fn vector_entry_refuses_or_roundtrips_half_modulus() {
    let (_params, _context, encoder, _keygen, _encryptor, _decryptor)
        = create_ckks_decryptor_suite(4096, vec![40, 40]);
    let scale = 2.0_f64.powi(38);
    let input = vec![num_complex::Complex64::new(2.0, 0.0); encoder.slot_count()];
    let r = std::panic::catch_unwind(|| {
        let p = encoder.encode_c64_array_new(&input, None, scale);
        encoder.decode_new(&p)
    });
    match r {
        Err(_) => {}
        Ok(v) => assert!((v[0].re - 2.0).abs() < 1e-3, "accepted but decoded to {} instead of 2.0", v[0].re),
    }
}

#[test]
fn single_value_entry_refuses() {
    let (_params, _context, encoder, _keygen, _encryptor, _decryptor)
        = create_ckks_decryptor_suite(4096, vec![40, 40]);
    let scale = 2.0_f64.powi(38);
    let r = std::panic::catch_unwind(|| encoder.encode_f64_single_new(2.0, None, scale));
    assert!(r.is_err(), "the single-value entry point accepts the same magnitude");
}
